"""Translated units: which function of /repo becomes which Gallina definition."""
from __future__ import annotations

import os

from pylite import Unit, emit_file

HDR = ("From DR Require Import Spec.Base.\nFrom Coq Require Import ZArith.\nLocal Open Scope Z_scope.\n")


def gen_slice(repo, out):
    f = os.path.join(repo, "python/lsst/daf/relation/_operations/_slice.py")
    self_env = {"self.start": ("self_start", "Z"), "self.stop": ("self_stop", "optZ")}
    sp = [("self_start", "Z"), ("self_stop", "option Z")]
    units = [
        Unit(f, "Slice", "__post_init__", "slice_post_init", sp, self_env, "res_unit", "result unit",
             fallthrough="Ok tt", raises={"ValueError": "Err ValueError"}),
        "(* dataclass construction runs __post_init__ *)\n"
        "Definition mk_slice (a : Z) (b : option Z) : result (Z * option Z) :=\n"
        "  match slice_post_init a b with Ok _ => Ok (a, b) | Err e => Err e end.",
        Unit(f, "Slice", "then", "slice_then", sp + [("next_start", "Z"), ("next_stop", "option Z")],
             {**self_env, "next.start": ("next_start", "Z"), "next.stop": ("next_stop", "optZ")},
             "slice_res", "result (Z * option Z)",
             calls={"Slice": ("mk_slice", ["Z", "optZ"], "slice_res")}),
        Unit(f, "Slice", "applied_min_rows", "slice_min_rows", sp + [("target_min_rows", "Z")],
             {**self_env, "target.min_rows": ("target_min_rows", "Z")}, "Z"),
        Unit(f, "Slice", "applied_max_rows", "slice_max_rows", sp + [("target_max_rows", "option Z")],
             {**self_env, "target.max_rows": ("target_max_rows", "optZ")}, "optZ"),
        "Inductive begin_kind := BIdentity | BKeep | BErr (e : err).",
        Unit(f, "Slice", "_begin_apply", "slice_begin", sp, self_env, "begin", "begin_kind",
             ret_patterns={"(Identity(), target.engine)": "BIdentity",
                           "super()._begin_apply(target, preferred_engine)": "BKeep"}),
        "Inductive finish_kind := FTarget | FDefault.",
        Unit(f, "Slice", "_finish_apply", "slice_finish", sp, self_env, "finish", "finish_kind",
             ret_patterns={"target": "FTarget", "super()._finish_apply(target)": "FDefault"}),
    ]
    return emit_file(os.path.join(out, "Slice.v"), HDR, units)


def gen_sqlrange(repo, out):
    f = os.path.join(repo, "python/lsst/daf/relation/sql/_engine.py")
    env = {"start": ("start", "Z"), "stop_exclusive": ("stop_exclusive", "Z"), "step": ("step", "Z"),
           "sql_item": ("sql_item", "S")}
    units = [
        Unit(f, "Engine", "convert_predicate", "range_to_sql",
             [("sql_item", "sexpr"), ("start", "Z"), ("stop_exclusive", "Z"), ("step", "Z")], env, "S", "sexpr",
             case_pattern="ColumnRangeLiteral(value=range(start=start, stop=stop_exclusive, step=step))",
             calls={"self.convert_column_literal": ("SLit", ["Z"], "S"),
                    "sqlalchemy.sql.between": ("SBetween", ["S", "S", "S"], "S"),
                    "sqlalchemy.sql.and_": ("SAnd", "varargs:S", "S"),
                    "sqlalchemy.sql.or_": ("SOr", "varargs:S", "S"),
                    "sqlalchemy.sql.not_": ("SNot", ["S"], "S"),
                    "sqlalchemy.sql.literal": ("SBool", ["bool"], "S")}),
    ]
    hdr = "From DR Require Import Spec.SqlExpr.\nFrom Coq Require Import ZArith.\nLocal Open Scope Z_scope.\n"
    return emit_file(os.path.join(out, "SqlRange.v"), hdr, units)


def gen_names(repo, out):
    """TU7: the f-string and statement order of GenericConcreteEngine.get_relation_name."""
    import ast
    import hashlib
    from pylite import Refuse, find_function
    f = os.path.join(repo, "python/lsst/daf/relation/_engine.py")
    fn, src = find_function(f, "GenericConcreteEngine", "get_relation_name")
    body = [s_ for s_ in fn.body if not (isinstance(s_, ast.Expr) and isinstance(s_.value, ast.Constant))]
    steps, parts = [], None
    for st in body:
        if isinstance(st, ast.Assign) and len(st.targets) == 1 and isinstance(st.targets[0], ast.Name) \
                and st.targets[0].id == "name" and isinstance(st.value, ast.JoinedStr):
            parts = []
            for v in st.value.values:
                if isinstance(v, ast.Constant) and isinstance(v.value, str):
                    if not all(ch.isalnum() or ch in "_-" for ch in v.value):
                        raise Refuse(f"unexpected literal {v.value!r} in the name f-string")
                    parts.append(f'NLit "{v.value}"')
                elif isinstance(v, ast.FormattedValue):
                    e = ast.unparse(v.value)
                    spec = ast.unparse(v.format_spec) if v.format_spec is not None else None
                    if e == "prefix" and spec is None:
                        parts.append("NPrefix")
                    elif e == "self.relation_name_counter" and spec in ("f'04d'", "'04d'"):
                        parts.append("NCounter 4")
                    elif e == "uuid.uuid4().hex" and spec is None:
                        parts.append("NUuidHex")
                    else:
                        raise Refuse(f"unexpected component {e!r} (format {spec}) in the name f-string")
                else:
                    raise Refuse("unexpected f-string component")
            steps.append("SBuildName")
        elif isinstance(st, ast.AugAssign) and ast.unparse(st.target) == "self.relation_name_counter" \
                and isinstance(st.op, ast.Add) and ast.unparse(st.value) == "1":
            steps.append("SIncrCounter")
        elif isinstance(st, ast.Return) and ast.unparse(st.value) == "name":
            steps.append("SReturn")
        else:
            raise Refuse(f"unexpected statement in get_relation_name: {ast.unparse(st)[:60]}")
    if parts is None:
        raise Refuse("no `name = f'...'` assignment in get_relation_name")
    text = ("(* GENERATED by /verif/translate from the working tree of /repo — DO NOT EDIT.\n"
            f"   source digest {hashlib.sha256(src.encode()).hexdigest()[:16]} *)\n"
            "From DR Require Import Spec.NameParts.\nFrom Coq Require Import String List.\nImport ListNotations.\nOpen Scope string_scope.\n\n"
            "(* from _engine.py :: GenericConcreteEngine.get_relation_name *)\n"
            f"Definition name_parts : list npart := [{'; '.join(parts)}].\n"
            f"Definition name_steps : list nstep := [{'; '.join(steps)}].\n")
    path = os.path.join(out, "Names.v")
    try:
        old = open(path).read()
    except FileNotFoundError:
        old = None
    if old != text:
        open(path, "w").write(text)
    return hashlib.sha256(src.encode()).hexdigest()[:16]


def gen_static(repo, out):
    import static_scan
    a = static_scan.emit_dataclasses(repo, out)
    b = static_scan.emit_write_sites(repo, out)
    return a + "+" + b


ALL = {"Slice": gen_slice, "SqlRange": gen_sqlrange, "Names": gen_names, "Static": gen_static}
# units that have a committed reference translation and a direct correspondence with the code
FALLBACK = {"Slice", "SqlRange", "Names"}


def generate(repo, out, only=None):
    """-> {unit: digest or 'REFUSED: reason'}"""
    from pylite import Refuse
    res = {}
    for name, fn in ALL.items():
        if only and name not in only:
            continue
        try:
            res[name] = fn(repo, out)
        except Refuse as r:
            ref = os.path.join(os.path.dirname(os.path.abspath(out)), "Ref", name + ".v")
            if name in FALLBACK and os.path.exists(ref):
                # The source text is outside the translator's subset (a rewrite, harmless or not).  Fall back to the
                # committed reference translation; the caller must then tie it to the code by the unit's direct
                # correspondence (vlib/kernels.py for Slice, the check's own correspondence for SqlRange and Names).
                text = (f"(* translator refused the current source; this is the reference translation coq/Ref/{name}.v *)\n"
                        + open(ref).read())
                dst = os.path.join(out, name + ".v")
                if not os.path.exists(dst) or open(dst).read() != text:      # keep the timestamp when nothing changed
                    with open(dst, "w") as oh:
                        oh.write(text)
                res[name] = f"FALLBACK: {r}"
                continue
            res[name] = f"REFUSED: {r}"
            # make the generated file uncompilable so that dependents fail closed
            for fname in {"Static": ["Dataclasses", "WriteSites"]}.get(name, [name]):
                with open(os.path.join(out, fname + ".v"), "w") as fh:
                    fh.write(f"(* translator refused: {r} *)\nTranslator refused this unit.\n")
    return res


if __name__ == "__main__":
    import json
    import sys
    print(json.dumps(generate(sys.argv[1] if len(sys.argv) > 1 else "/repo", sys.argv[2] if len(sys.argv) > 2 else "/verif/coq/Gen"), indent=1))
