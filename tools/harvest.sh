#!/bin/sh
# harvest.sh <Cxx> [name]: collect a sub-agent's change from /tmp/wt_<Cxx> into /verif/seeded/<name>/
id=$1; name=${2:-$1}
wt=/tmp/wt_$id; d=/verif/seeded/$name
mkdir -p $d
git -C $wt diff -- python > $d/patch.diff
cp $wt/DEMO.py $d/demonstration.py 2>/dev/null
cp $wt/NOTES.md $d/NOTES.md 2>/dev/null
wc -l $d/patch.diff
