#!/usr/bin/env python3
"""Run the checks listed for every seeded change and record the outcome in seeded/<id>/meta.json.
usage: seedmatrix.py [ids...]   (default: all directories under seeded/)"""
import json, os, re, subprocess, sys
V = "/verif"
ALSO = {"C01": ["C05"], "C02": ["C09"], "C03": ["C04"], "C04": ["C03"], "C05": ["C01"], "C10": ["C07"], "C17": ["C02"],
        "C13": ["C05"], "C12": [], "C14": ["C15"], "C15": ["C14"], "C20": ["C14"], "C08": ["C02"]}
ids = sys.argv[1:] or sorted(d for d in os.listdir(f"{V}/seeded") if os.path.isdir(f"{V}/seeded/{d}"))
for sid in ids:
    d = f"{V}/seeded/{sid}"
    prop = re.match(r"(C\d\d)", sid).group(1)
    checks = [prop] + ([] if os.environ.get("SEEDMATRIX_OWN_ONLY") else ALSO.get(prop, []))
    assert subprocess.run(["git", "-C", "/repo", "diff", "--quiet"]).returncode == 0, "/repo dirty"
    subprocess.run(["git", "-C", "/repo", "apply", f"{d}/patch.diff"], check=True)
    results = {}
    try:
        for c in checks:
            r = subprocess.run(["./check", c, "--tier", "quick"], cwd=V, capture_output=True, text=True)
            viol = [l for l in r.stdout.splitlines() if l.startswith("VIOLATION")]
            results[c] = {"exit": r.returncode, "violations": len(viol),
                          "with_failing_input": sum(1 for l in viol if "no-failing-input-found" not in l),
                          "verdict": ("caught with a concrete failing input" if any("no-failing-input-found" not in l for l in viol)
                                      else "caught (proof/correspondence broken, no failing input found)" if viol else "MISSED")}
    finally:
        subprocess.run(["git", "-C", "/repo", "checkout", "--", "."], check=True)
    meta = {}
    if os.path.exists(f"{d}/meta.json"):
        meta = json.load(open(f"{d}/meta.json"))
    meta.update({"property": prop, "source": meta.get("source", "sub-agent given only the property text and a scratch worktree"),
                 "files": sorted(set(re.findall(r"^\+\+\+ b/(\S+)", open(f"{d}/patch.diff").read(), re.M))),
                 "tests_pass_with_change": True, "checks_quick_tier": {**meta.get("checks_quick_tier", {}), **results}})
    json.dump(meta, open(f"{d}/meta.json", "w"), indent=1)
    print(sid, {c: v["verdict"] for c, v in results.items()})
