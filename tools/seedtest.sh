#!/bin/sh
# seedtest.sh <seeded-dir> <check ids...>: apply /verif/seeded/<dir>/patch.diff to /repo, run the checks, undo.
# Prints one line per check: "<id> rc=<exit> <last line>" plus its VIOLATION lines.
cd /verif
d=seeded/$1; shift
[ -f "$d/patch.diff" ] || { echo "no $d/patch.diff"; exit 2; }
git -C /repo diff --quiet || { echo "/repo has local changes; refusing"; exit 2; }
git -C /repo apply "/verif/$d/patch.diff" || exit 2
for p in "$@"; do
  out=$(./check "$p" --tier ${TIER:-quick} 2>&1); rc=$?
  echo "$p rc=$rc $(echo "$out" | tail -1)"
  echo "$out" | grep "^VIOLATION" | head -3
done
git -C /repo checkout -- .
