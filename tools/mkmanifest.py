#!/usr/bin/env python3
"""Regenerates /verif/MANIFEST.json from the table below (claimed checks) and properties.jsonl."""
import json
import os

V = os.path.dirname(os.path.dirname(os.path.abspath(__file__)))
NOTE_COMMON = ("Trusted: Coq 8.16.1 kernel; the fail-closed translator for the units regenerated from source; the "
               "hand-written model files, validated against the real library by the correspondence run of the same "
               "check; the Python harness. No axioms are declared; Print Assumptions output is recorded in the evidence.")
TECH = "machine-checked proof in Coq (Rocq) over a model regenerated from / validated against the source; differential search for replays"

CLAIMED = {
    "C05": ("Theorems C05_* (coq/Properties/C05.v): every merge/elision reported by simplify, and the tree returned by "
            "_finish_apply after any number of merge steps, denote the composition of the operations for all parameters "
            "(all integer slice bounds, all sort-term lists, all predicates) and all row lists; merging never raises. "
            "Slice arithmetic is regenerated from _slice.py on every run.", "DESIGN.md §4 C05"),
    "C13": ("Theorems C13_* (coq/Properties/C13.v): as_trivial, flatten_logical_and, the predicate a Selection stores and "
            "columns_required are sound for every predicate/expression tree and every row (nested induction over operand "
            "lists). The model of _predicate.py is hand-written and compared with the real functions on every run.",
            "DESIGN.md §4 C13"),
}
CLAIMED["C12"] = ("Theorems C12_* (coq/Properties/C12.v): the iteration engine's callables and the SQL engine's translation "
                  "(under SQLite's integer semantics for %, BETWEEN, IN, NOT/AND/OR) agree with direct evaluation for every "
                  "expression/predicate tree, every range literal (all signs of start/stop/step) and every row. The "
                  "range-literal arm of convert_predicate is regenerated from sql/_engine.py on every run; the SQL semantics "
                  "is validated against a real SQLite database by the same run.", "DESIGN.md §4 C12")
CLAIMED["C01"] = ("Theorem C01_iteration_execute_exact (coq/Properties/C01.v): for every program of factory calls accepted by the "
                  "model of the factory pipeline, over truthful leaves, the model of Engine.execute (short-cuts, dict-based "
                  "deduplication, multi-pass sort, lazy row iterables' content) returns exactly the list denoted by direct "
                  "evaluation of the applied operation sequence; proved by structural induction with no bound on program "
                  "length, row count or integer size. Deduplication is claimed under the documented key-column contract "
                  "(refutation witness for the unconditional statement included). Model tied to the code by regenerated "
                  "Slice kernels and by comparing built trees and executed rows with the real library on every run.",
                  "DESIGN.md §4 C01")
CLAIMED["C06"] = ("Theorems C06_* (coq/Properties/C06.v): for every well-formed tree (all node kinds of both engines) over "
                  "truthful leaves every row has exactly the relation's columns and the row count lies within "
                  "[min_rows, max_rows]; hence max_rows=0 and is_join_identity agree with the content. Slice bound formulas "
                  "are regenerated from source; the remaining bound formulas are compared with the library on every run.",
                  "DESIGN.md §4 C06")
CLAIMED["C04"] = ("Theorem C04_commute_sound (coq/Properties/C04.v): for all 36 ordered pairs of the six unary operation types, all "
                  "parameters, all targets and all row lists, a reported move is well-formed and preserves the rows in order "
                  "(partial moves included); a refused move hands back the existing operation. Theorem C04_join_commute_sound: "
                  "the same for PartialJoin requests (fixed operand on either side, every existing operation, predicate, common "
                  "columns, fixed tree and target) under the documented ColumnTag contract; with the fixed operand on the left "
                  "and an existing Sort the two sides are equal as multisets. The exhaustive small-scope sweep of the real "
                  "commute() (all pairs x parameter shapes x targets of <=2/3 rows plus three long targets) compares the model's "
                  "commute with the real one and judges the real reports. Known finding F2 (Projection past Deduplication, pinned by the suite) is excluded from the theorem "
                  "with a refutation witness and reported as KNOWN-FINDING.", "DESIGN.md §4 C04")
CLAIMED["C14"] = ("Theorems C14_* (coq/Properties/C14.v): iteration-engine programs of any length build node-locally well-formed "
                  "trees without placeholder nodes; the documented no-op calls (projection onto all columns, empty sort, "
                  "transfer to the own engine) return the relation itself in every engine and with every option; programs over "
                  "several iteration engines with options and single-engine SQL programs build well-formed trees "
                  "(C14_multi_engine_iteration_programs_well_formed, C14_sql_programs_well_formed), and programs mixing both engine "
                  "kinds do within the scope of C03's program theorem. Beyond that scope (transfer options, projections with a "
                  "preferred engine) well-formedness of every node is decided per run by evaluating the Coq predicate wf_reach on the "
                  "real trees of random multi-engine programs (the model's build is compared too).", "DESIGN.md §4 C14")
CLAIMED["C15"] = ("Theorems C15_* (coq/Properties/C15.v): Transfer.simplify returns a content-equal subtree, materializing a locked "
                  "relation adds nothing, backtracking stops at a locked node and _finish_apply keeps a locked target as operand. "
                  "Object identity of locked nodes across every factory call is checked on the real library per run.",
                  "DESIGN.md §4 C15")
CLAIMED["C17"] = ("Theorems C17_* (coq/Properties/C17.v): conform and every append rule return a SELECT marker, conform is idempotent, the "
                  "compound flag holds iff the skip target is a chain, and C17_conform_preserves_rows: conforming a raw tree (leaves, "
                  "transfers, materializations, any unary operations, chains, joins of any operands - the join-identity elision re-entering conform included -, conformed subtrees whose markers are good) "
                  "returns a relation with the same rows as a list, the same columns and engine, all of whose markers are coherent. Marker "
                  "coherence is also evaluated on real trees per run (known finding F13: apply_skip's simplification can swallow an unused "
                  "calculation, witness in Coq), and raw trees are conformed by the real engine, executed on SQLite under both scan orders "
                  "and compared with the specification.", "DESIGN.md §4 C17")
CLAIMED["C20"] = ("Theorems C20_* (coq/Properties/C20.v): an operation's own checks precede all preferred-engine logic, so a missing "
                  "column, an existing tag, a bad slice, mismatched chain operands, an unsupported expression or a join predicate "
                  "with a missing column is rejected with the documented class for every option combination; single ill-typing "
                  "edits of random multi-engine programs are replayed on the real library per run.", "DESIGN.md §4 C20")
CLAIMED["C03"] = ("Theorems C03_backtrack_sound, C03_apply_with_options_sound, C03_result_engine (coq/Properties/C03.v): in the model of "
                  "iteration.Engine.backtrack_unary (every commutator, partial projections, transfers into the preferred engine, SQL or "
                  "iteration sources) and of UnaryOperation.apply with every backtrack/transfer/require combination, a returned relation has "
                  "the rows (as a list) and columns of the operation applied at the root, lives in the original or (transfer) preferred "
                  "engine, and require_preferred_engine refuses with EngineError when the operation cannot be placed there. Theorems "
                  "C03_join_backtrack_sound / C03_join_with_options_sound: the same for Relation.join (a PartialJoin moved upstream to the "
                  "transfer that left the operand's engine, or the target transferred, or the call refused), under the documented ColumnTag "
                  "contract; C03_join_in_one_engine_sound: a join of two relations of one engine, for every pair of operands (the join identity included), with no side condition. Theorem C03_programs_over_both_engine_kinds_denote_their_specification: whole programs of factory calls over "
                  "any number of SQL and iteration engines (unary calls with any preferred-engine option, joins in one engine "
                  "or across engines, chains, materializations, transfers) build trees that denote the program's specification and have "
                  "the shape the call-by-call theorems require, so these compose. Excluded: finding F2 (projection past a Deduplication, pinned by the suite; known finding), a SQL target joined "
                  "without transfer to an operand elsewhere, and the transfer into an SQL engine after a failed backtracking attempt "
                  "(decided per run by the correspondence only). Every generated "
                  "program is built on the real library, processed by a real SQLite<->iteration Processor, executed and compared with the "
                  "model's tree and the specification's rows; placement clauses are judged on the real tree.", "DESIGN.md §4 C03")
CLAIMED["C07"] = ("Theorems C07_process_faithful and C07_repeated_process_faithful (coq/Properties/C07.v): for every well-formed multi-engine "
                  "tree over truthful leaves and any state left by earlier process() calls, the model of Processor._process_recursive returns "
                  "the rows of direct evaluation, stores payloads for materializations of the input only (each the content of its node), keeps "
                  "earlier payloads, and invokes hooks only with the content of their node and never for statically empty or join-identity "
                  "nodes. A real Processor subclass (SQLite temp tables <-> RowSequence) processes every generated tree twice per run; hook "
                  "log, payloads on the input tree, object identity of its nodes and executed rows are compared with the model and the "
                  "specification. The shape of the rebuilt tree is checked on the implementation only (hook sources hold no payload-less "
                  "transfer).", "DESIGN.md §4 C07")
CLAIMED["C16"] = ("Theorem C16_diagnostics_correct (coq/Properties/C16.v): for every well-formed tree over truthful leaves the model of "
                  "Diagnostics.run dooms only empty relations, every doomed verdict has a message, and with a truthful executor "
                  "the verdict is exact (doomed iff no rows). The model of run() is compared with the real Diagnostics (verdict and "
                  "message count), with and without a really executing executor, on every run.", "DESIGN.md §4 C16")
CLAIMED["C19"] = ("Theorem C19_names_distinct (coq/Properties/C19.v): for any number of engines and requests and every interleaving of "
                  "the micro-steps of get_relation_name (f-string parts and statement order regenerated from _engine.py), the names "
                  "handed out are pairwise distinct and begin with the requested prefix, given distinct uuid4() values (oracle). "
                  "Sequential histories are compared character by character with the model; real threads are run per check.",
                  "DESIGN.md §4 C19")
CLAIMED["C10"] = ("Theorems C10_* (coq/Properties/C10.v): over any history of attach_payload / execute events on trees sharing "
                  "materialization nodes, a payload once present is never replaced or cleared, each materialization's upstream is "
                  "evaluated at most once, later evaluations return the cached rows, and attachment to a non-marker or to a marker "
                  "with a payload raises TypeError. Real histories over shared node objects (payload identities, leaf iteration "
                  "counts) are compared with the model per run. Processor histories are C07's.", "DESIGN.md §4 C10")
CLAIMED["C18"] = ("Theorems C18_* (coq/Properties/C18.v) over a cost model of execute() and the RowIterable classes: lazy trees start "
                  "no leaf iteration at execute time and at most one per leaf occurrence per full iteration; for every tree, "
                  "execute plus one iteration touch each leaf occurrence at most once; results of eager operations never "
                  "re-iterate upstream. Counting leaf payloads validate the cost model (as an upper bound) on the real engine. "
                  "Partial by nature: generator/iterator semantics of CPython is an oracle.", "DESIGN.md §4 C18")
CLAIMED["C09"] = ("Theorems C09_* (coq/Properties/C09.v), decided by vm_compute over finite tables regenerated from the package source on "
                  "every run: every class the factories put into trees is hashable under CPython's dataclass rules; every write "
                  "site of the package writes to an object created in the same call, to self in a constructor, to the write-once "
                  "payload slot or to the name counter. Random interleaved histories (factory calls, compile, process+execute, "
                  "diagnostics, rebuild) re-fingerprint every earlier relation and leaf payload cell after each event. Partial by "
                  "nature: aliasing outside the enumerated sites is not exhibited by the model.", "DESIGN.md §4 C09")
CLAIMED["C02"] = ("Theorems C02_* (coq/Properties/C02.v), layer (a): Select.apply_skip, every rule of _append_unary_to_select (calculation, "
                  "deduplication, projection incl. push-down into UNION operands, selection, slice, sort; every slot state), the chain rule "
                  "and the join rule of _append_binary_to_select (marker stripping with the hidden-column guard; every pair of operands, the join-identity elision with its re-entry into conform included) return a conformed relation "
                  "whose denotation is the applied operation's — list equality, all parameters, all row lists; and "
                  "C02_sql_program_denotes_its_specification: every relation a single-engine SQL program of factory calls returns is "
                  "conformed and denotes the program's specification. Not proved: "
                  "preferred-engine options (see C03's program theorem for those), and layer (b) (to_payload/_select_to_executable and the database), which are decided per run "
                  "by executing the compiled SQL on a real SQLite under both scan orders and comparing with the specification (forced "
                  "classes for every repaired defect and every seeded change). Partial.", "DESIGN.md §4 C02")
CLAIMED["C08"] = ("Theorem C08_accepted_iteration_program_executes: accepted iteration programs execute (to the specification's rows). "
                  "For the SQL engine the theorem only fixes the shape handed to the compiler; 'compiles and the database accepts it' "
                  "is decided per run on random programs with joins of chains, chains of joins and expression sorts, executed on "
                  "SQLite. Known finding F14 (nested compound operands, pinned by the suite). Partial.", "DESIGN.md §4 C08")
CLAIMED["C11"] = ("Theorems C11_* (coq/Properties/C11.v): in the model of the SQL engine the rows' order is part of the denotation and is "
                  "preserved by the slice and sort rules for every slot state; binary operations and materialization refuse an "
                  "unsliced sort with the row-order-loss error. That the emitted ORDER BY/LIMIT/OFFSET make the database return that "
                  "list is decided per run on SQLite (list comparison, both scan orders). Partial.", "DESIGN.md §4 C11")
NOT_APPLICABLE = {}


def main():
    props = [json.loads(l) for l in open(os.path.join(V, "properties.jsonl"))]
    ids = [p["id"] for p in props]
    man = {
        "version": 1,
        "setup_cmd": "./setup.sh",
        "hooks": {"guard": "LSST_DAF_RELATION_VERIF",
                  "enable": "no hooks are needed: the harness observes the library through its public API",
                  "baseline_off_cmd": "cd /repo && /venv/bin/python -m pytest -ra -q -p no:cacheprovider --timeout=900 --continue-on-collection-errors",
                  "source_commits": [], "add_only": True},
        "engines": [
            {"name": "pylite-translator", "path": "translate/", "serves_properties": sorted(CLAIMED),
             "kind_free_text": "fail-closed Python-ast to Gallina translator; regenerates coq/Gen/*.v from /repo on every run"},
            {"name": "coq-development", "path": "coq/", "serves_properties": sorted(CLAIMED),
             "kind_free_text": "Coq 8.16 specification (Spec), model (Model), proofs (Proofs) and property theorems (Properties)"},
            {"name": "correspondence-harness", "path": "harness/", "serves_properties": sorted(CLAIMED),
             "kind_free_text": "runs the real library and evaluates model and specification on the same cases inside Coq (vm_compute)"}],
        "checks": [], "not_applicable": [],
        "notes": "See DESIGN.md. Properties move from not_applicable to checks as their machinery is built."}
    for pid in ids:
        if pid in CLAIMED:
            text, ref = CLAIMED[pid]
            man["checks"].append({
                "property_id": pid, "quick_cmd": f"./check {pid} --tier quick", "thorough_cmd": f"./check {pid} --tier thorough",
                "evidence_file": f"/verif/evidence/{pid}.json", "replay_cmd_template": f"./check {pid} --replay {{path}}",
                "engine": "coq-development",
                "level_claimed": {"category": "proof", "text": text, "design_ref": ref},
                "level_note": NOTE_COMMON, "technique": TECH})
        else:
            man["not_applicable"].append({"property_id": pid, "reason": NOT_APPLICABLE.get(
                pid, "not claimed yet: machinery under construction in this session (see DESIGN.md build order)")})
    json.dump(man, open(os.path.join(V, "MANIFEST.json"), "w"), indent=1)
    print("claimed:", sorted(CLAIMED))


if __name__ == "__main__":
    main()
