#!/usr/bin/env python3
"""Regenerates /verif/MANIFEST.json from the table below (claimed checks) and properties.jsonl."""
import json
import os

V = os.path.dirname(os.path.dirname(os.path.abspath(__file__)))
NOTE_COMMON = ("Trusted: Coq 8.16.1 kernel; the fail-closed translator for the units regenerated from source; the "
               "hand-written model files, validated against the real library by the correspondence run of the same "
               "check; the Python harness. No axioms are declared; Print Assumptions output is recorded in the evidence.")
TECH = "machine-checked proof in Coq (Rocq) over a model regenerated from / validated against the source; differential search for replays"

CLAIMED = {
    "C05": ("Theorems C05_* (coq/Properties/C05.v): every merge/elision reported by simplify, and the tree returned by "
            "_finish_apply after any number of merge steps, denote the composition of the operations for all parameters "
            "(all integer slice bounds, all sort-term lists, all predicates) and all row lists; merging never raises. "
            "Slice arithmetic is regenerated from _slice.py on every run.", "DESIGN.md §4 C05"),
    "C13": ("Theorems C13_* (coq/Properties/C13.v): as_trivial, flatten_logical_and, the predicate a Selection stores and "
            "columns_required are sound for every predicate/expression tree and every row (nested induction over operand "
            "lists). The model of _predicate.py is hand-written and compared with the real functions on every run.",
            "DESIGN.md §4 C13"),
}
CLAIMED["C12"] = ("Theorems C12_* (coq/Properties/C12.v): the iteration engine's callables and the SQL engine's translation "
                  "(under SQLite's integer semantics for %, BETWEEN, IN, NOT/AND/OR) agree with direct evaluation for every "
                  "expression/predicate tree, every range literal (all signs of start/stop/step) and every row. The "
                  "range-literal arm of convert_predicate is regenerated from sql/_engine.py on every run; the SQL semantics "
                  "is validated against a real SQLite database by the same run.", "DESIGN.md §4 C12")
CLAIMED["C01"] = ("Theorem C01_iteration_execute_exact (coq/Properties/C01.v): for every program of factory calls accepted by the "
                  "model of the factory pipeline, over truthful leaves, the model of Engine.execute (short-cuts, dict-based "
                  "deduplication, multi-pass sort, lazy row iterables' content) returns exactly the list denoted by direct "
                  "evaluation of the applied operation sequence; proved by structural induction with no bound on program "
                  "length, row count or integer size. Deduplication is claimed under the documented key-column contract "
                  "(refutation witness for the unconditional statement included). Model tied to the code by regenerated "
                  "Slice kernels and by comparing built trees and executed rows with the real library on every run.",
                  "DESIGN.md §4 C01")
CLAIMED["C06"] = ("Theorems C06_* (coq/Properties/C06.v): for every well-formed tree (all node kinds of both engines) over "
                  "truthful leaves every row has exactly the relation's columns and the row count lies within "
                  "[min_rows, max_rows]; hence max_rows=0 and is_join_identity agree with the content. Slice bound formulas "
                  "are regenerated from source; the remaining bound formulas are compared with the library on every run.",
                  "DESIGN.md §4 C06")
CLAIMED["C04"] = ("Theorem C04_commute_sound (coq/Properties/C04.v): for all 36 ordered pairs of the six unary operation types, all "
                  "parameters, all targets and all row lists, a reported move is well-formed and preserves the rows in order "
                  "(partial moves included); a refused move hands back the existing operation. PartialJoin pairs are not "
                  "covered by the theorem yet: they are decided by the exhaustive small-scope sweep of the real commute() "
                  "(all pairs x parameter shapes x targets of <=2/3 rows), which also compares the model's commute with the "
                  "real one. Known finding F2 (Projection past Deduplication, pinned by the suite) is excluded from the theorem "
                  "with a refutation witness and reported as KNOWN-FINDING.", "DESIGN.md §4 C04")
NOT_APPLICABLE = {}


def main():
    props = [json.loads(l) for l in open(os.path.join(V, "properties.jsonl"))]
    ids = [p["id"] for p in props]
    man = {
        "version": 1,
        "setup_cmd": "./setup.sh",
        "hooks": {"guard": "LSST_DAF_RELATION_VERIF",
                  "enable": "no hooks are needed: the harness observes the library through its public API",
                  "baseline_off_cmd": "cd /repo && /venv/bin/python -m pytest -ra -q -p no:cacheprovider --timeout=900 --continue-on-collection-errors",
                  "source_commits": [], "add_only": True},
        "engines": [
            {"name": "pylite-translator", "path": "translate/", "serves_properties": sorted(CLAIMED),
             "kind_free_text": "fail-closed Python-ast to Gallina translator; regenerates coq/Gen/*.v from /repo on every run"},
            {"name": "coq-development", "path": "coq/", "serves_properties": sorted(CLAIMED),
             "kind_free_text": "Coq 8.16 specification (Spec), model (Model), proofs (Proofs) and property theorems (Properties)"},
            {"name": "correspondence-harness", "path": "harness/", "serves_properties": sorted(CLAIMED),
             "kind_free_text": "runs the real library and evaluates model and specification on the same cases inside Coq (vm_compute)"}],
        "checks": [], "not_applicable": [],
        "notes": "See DESIGN.md. Properties move from not_applicable to checks as their machinery is built."}
    for pid in ids:
        if pid in CLAIMED:
            text, ref = CLAIMED[pid]
            man["checks"].append({
                "property_id": pid, "quick_cmd": f"./check {pid} --tier quick", "thorough_cmd": f"./check {pid} --tier thorough",
                "evidence_file": f"/verif/evidence/{pid}.json", "replay_cmd_template": f"./check {pid} --replay {{path}}",
                "engine": "coq-development",
                "level_claimed": {"category": "proof", "text": text, "design_ref": ref},
                "level_note": NOTE_COMMON, "technique": TECH})
        else:
            man["not_applicable"].append({"property_id": pid, "reason": NOT_APPLICABLE.get(
                pid, "not claimed yet: machinery under construction in this session (see DESIGN.md build order)")})
    json.dump(man, open(os.path.join(V, "MANIFEST.json"), "w"), indent=1)
    print("claimed:", sorted(CLAIMED))


if __name__ == "__main__":
    main()
