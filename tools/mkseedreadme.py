#!/usr/bin/env python3
"""Rewrite the table of seeded/README.md (between the markers) from seeded/*/meta.json."""
import json, os, re
V = "/verif/seeded"
rows = []
for d in sorted(os.listdir(V)):
    mp = f"{V}/{d}/meta.json"
    if not os.path.exists(mp) or d.startswith("harmless"):
        continue
    m = json.load(open(mp))
    now = "; ".join(f"{c}: {v['verdict']}" for c, v in m.get("checks_quick_tier", {}).items())
    files = ", ".join(f"`{os.path.basename(f)}`" for f in m.get("files", []))
    rows.append(f"| {d} | {m.get('round', 1)} | {files} | {m.get('first_run_verdict', '?')} | {now} | {m.get('strengthened', '—')} |")
hrows = []
for d in sorted(os.listdir(V)):
    mp = f"{V}/{d}/meta.json"
    if d.startswith("harmless") and os.path.exists(mp):
        m = json.load(open(mp))
        files = ", ".join(f"`{os.path.basename(f)}`" for f in m.get("files", []))
        hrows.append(f"| {d} | {m.get('round', 1)} | {files} | {m.get('first_run', '?')} | {m.get('now', '?')} |")
s = open(f"{V}/README.md").read()
table = ("<!-- table:begin -->\n| change | round | file | first run of the property's own check | now (quick tier, default seed) | what was strengthened |\n"
         "|---|---|---|---|---|---|\n" + "\n".join(rows) + "\n<!-- table:end -->")
if "<!-- table:begin -->" in s:
    s = re.sub(r"<!-- table:begin -->.*?<!-- table:end -->", lambda _m: table, s, flags=re.S)
else:
    s = re.sub(r"\| change \| round \|.*?\n\n", lambda _m: table + "\n\n", s, count=1, flags=re.S)
htable = ("<!-- harmless:begin -->\n| refactoring | round | files | alarms on its first run (of 20 checks) | alarms now |\n|---|---|---|---|---|\n"
          + "\n".join(hrows) + "\n<!-- harmless:end -->")
if "<!-- harmless:begin -->" in s:
    s = re.sub(r"<!-- harmless:begin -->.*?<!-- harmless:end -->", lambda _m: htable, s, flags=re.S)
else:
    s += "\n## Harmless refactorings\n\n" + htable + "\n"
open(f"{V}/README.md", "w").write(s)
print(len(rows), "changes,", len(hrows), "refactorings")
