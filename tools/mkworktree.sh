#!/bin/sh
# scratch worktree of /repo for a seeded-mutation sub-agent:  mkworktree.sh <dir>
set -e
git -C /repo worktree add -q --detach "$1" HEAD
cp /repo/python/lsst/daf/relation/version.py "$1/python/lsst/daf/relation/version.py"
echo "$1"
