"""Direct correspondence for the translated Slice kernels (see coq/Model/CheckKernels.v): the real methods of
lsst.daf.relation.Slice on every small window pair against the Gallina definitions in coq/Gen/Slice.v."""
from __future__ import annotations

import itertools

import lsst.daf.relation as dr
from lsst.daf.relation import iteration

import core

HDR = "From DR Require Import Model.CheckKernels.\nFrom Coq Require Import ZArith List.\nImport ListNotations.\nOpen Scope Z_scope.\n"


def cz(z):
    return f"({z})" if z < 0 else str(z)


def coptz(z):
    return "None" if z is None else f"(Some {cz(z)})"


def slice_cases():
    eng = iteration.Engine(name="kernel")
    windows = [(a, b) for a in (-1, 0, 1, 2, 4) for b in (None, -1, 0, 1, 2, 3, 5)]
    seconds = [(c, d) for c in (0, 1, 3) for d in (None, 0, 1, 2, 4, 7) if d is None or d >= c]
    out = []
    for (a, b) in windows:
        try:
            op = dr.Slice(a, b)
            ok = True
        except ValueError:
            op, ok = None, False
        for (c, d) in (seconds if ok else seconds[:1]):
            then, mins, maxs, begin, finish = "None", [], [], 0, 0
            if ok:
                t = op.then(dr.Slice(c, d))
                then = f"(Some ({cz(t.start)}, {coptz(t.stop)}))"
                for m in (0, 1, 2, 3, 6):
                    leaf = dr.LeafRelation(eng, frozenset(), iteration.RowSequence([{}] * m), name=f"k{m}", min_rows=m, max_rows=None)
                    mins.append((m, op.applied_min_rows(leaf)))
                for mx in (None, 0, 1, 2, 3, 6):
                    leaf = dr.LeafRelation(eng, frozenset(), iteration.RowSequence([]), name="kx", min_rows=0, max_rows=mx)
                    maxs.append((mx, op.applied_max_rows(leaf)))
                leaf = eng.make_leaf(set(), payload=iteration.RowSequence([{}, {}, {}]), name="kb")
                try:
                    got, _e = op._begin_apply(leaf, None)
                    begin = 0 if isinstance(got, dr.Identity) else 1
                except Exception:  # noqa: BLE001
                    begin = 2
                finish = 0 if op._finish_apply(leaf) is leaf else 1
            mins_t = "[" + "; ".join(f"({cz(m)}, {cz(v)})" for m, v in mins) + "]"
            maxs_t = "[" + "; ".join(f"({coptz(m)}, {coptz(v)})" for m, v in maxs) + "]"
            out.append({"json": {"slice": [a, b], "next": [c, d], "constructed": ok, "then": then, "min_rows": mins, "max_rows": maxs,
                                 "begin": begin, "finish": finish},
                        "coq": f"SKCase {cz(a)} {coptz(b)} {cz(c)} {coptz(d)} {'true' if ok else 'false'} {then} {mins_t} {maxs_t} "
                               f"{begin}%N {finish}%N"})
    return out


def slice_differential():
    """-> (number of cases, list of disagreeing cases (json), evaluation errors)"""
    cases = slice_cases()
    codes, errors = core.eval_sharded("kernel_slice", HDR, [c["coq"] for c in cases], "check_slice_kernel", shard=400)
    return len(cases), [cases[i]["json"] for i in sorted(codes)], errors
