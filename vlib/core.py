"""Common machinery of the checks: translator run, Coq build, evaluation of generated case files
inside Coq (vm_compute), verdict protocol, evidence files."""
from __future__ import annotations

import fcntl
import json
import os
import re
import subprocess
import sys
import time

VERIF = os.path.dirname(os.path.dirname(os.path.abspath(__file__)))
REPO = os.environ.get("VERIF_REPO", "/repo")
COQ = os.path.join(VERIF, "coq")
SCRATCH = os.path.join(COQ, ".scratch")
sys.path.insert(0, os.path.join(VERIF, "translate"))


class Lock:
    def __enter__(self):
        os.makedirs(COQ, exist_ok=True)
        self.f = open(os.path.join(COQ, ".lock"), "w")
        fcntl.flock(self.f, fcntl.LOCK_EX)
        return self

    def __exit__(self, *a):
        fcntl.flock(self.f, fcntl.LOCK_UN)
        self.f.close()


def sh(cmd, timeout=1800, cwd=None, env=None):
    p = subprocess.run(cmd, shell=isinstance(cmd, str), cwd=cwd, env=env, timeout=timeout,
                       stdout=subprocess.PIPE, stderr=subprocess.STDOUT, text=True)
    return p.returncode, p.stdout


# ------------------------------------------------------------------------------------------------
# S1: translator + proofs
# ------------------------------------------------------------------------------------------------
def regen(only=None):
    """Run the translator against /repo's working tree. -> {unit: digest | 'REFUSED: ...'}"""
    import importlib
    import units
    importlib.reload(units)
    return units.generate(REPO, os.path.join(COQ, "Gen"), only)


def module_cone(root_rel):
    """All DR .v files (relative to coq/) that root_rel transitively Requires."""
    seen, todo = [], [root_rel]
    while todo:
        f = todo.pop()
        if f in seen or not os.path.exists(os.path.join(COQ, f)):
            continue
        seen.append(f)
        txt = open(os.path.join(COQ, f)).read()
        for m in re.finditer(r"From DR Require (?:Import|Export)\s+([^.]*(?:\.[A-Za-z_][\w.]*)*)\.\s", txt):
            pass
        for stmt in re.findall(r"From DR Require (?:Import|Export)([^\n]*(?:\n\s+[^\n]*)*?)\.\s*\n", txt):
            for mod in stmt.split():
                todo.append(mod.replace(".", "/") + ".v")
    return seen


STMT = re.compile(r"^\s*(Theorem|Lemma|Corollary|Example|Fact|Proposition)\s+([A-Za-z_][\w']*)", re.M)


def statements_in(files):
    out = []
    for f in files:
        try:
            txt = open(os.path.join(COQ, f)).read()
        except FileNotFoundError:
            continue
        out += [(f, m.group(2)) for m in STMT.finditer(txt)]
    return out


FORBIDDEN = re.compile(r"\b(Admitted|admit|Axiom|Parameter|Conjecture|Unset Guard Checking|bypass_check|"
                       r"Admit Obligations|type-in-type|impredicative-set)\b")


def forbidden_in(files):
    bad = []
    for f in files:
        try:
            txt = open(os.path.join(COQ, f)).read()
        except FileNotFoundError:
            continue
        txt = re.sub(r"\(\*.*?\*\)", "", txt, flags=re.S)
        for m in FORBIDDEN.finditer(txt):
            bad.append(f"{f}: {m.group(1)}")
        if re.search(r"^\s*(Variable|Hypothesis|Context)\b", txt, re.M):
            # allowed only inside sections: check every occurrence is between Section/End
            depth = 0
            for line in txt.splitlines():
                if re.match(r"\s*Section\b", line):
                    depth += 1
                elif re.match(r"\s*End\b", line):
                    depth = max(0, depth - 1)
                elif re.match(r"\s*(Variable|Hypothesis)\b", line) and depth == 0:
                    bad.append(f"{f}: {line.strip()[:40]} outside a section")
    return bad


def failing_statement(log):
    """From a make log, find (file, line, enclosing statement name, message)."""
    m = re.search(r'File "\./([^"]+)", line (\d+)', log)
    if not m:
        return None
    f, line = m.group(1), int(m.group(2))
    name = None
    try:
        lines = open(os.path.join(COQ, f)).read().splitlines()
        for i in range(min(line, len(lines)) - 1, -1, -1):
            mm = STMT.match(lines[i]) or re.match(r"^\s*(Definition|Fixpoint)\s+([A-Za-z_][\w']*)", lines[i])
            if mm:
                name = mm.group(2)
                break
    except FileNotFoundError:
        pass
    msg = log[m.start():m.start() + 600]
    return {"file": f, "line": line, "statement": name, "message": msg}


def build(targets, timeout=1500):
    """Full .vo build of the given targets (relative .vo paths). -> (ok, log)"""
    with Lock():
        rc, out = sh([os.path.join(COQ, "mk.sh")] + targets, timeout=timeout + 60,
                     env={**os.environ, "MK_TIMEOUT": str(timeout)})
    return rc == 0, out


def print_assumptions(prop, theorems, module):
    """-> {theorem: [axioms]} using a throw-away file compiled against the built .vo files."""
    os.makedirs(SCRATCH, exist_ok=True)
    path = os.path.join(SCRATCH, f"assume_{prop}.v")
    with open(path, "w") as f:
        f.write(f"From DR Require Import {module}.\n")
        for t in theorems:
            f.write(f'Goal True. idtac "@@ {t}". Abort.\nPrint Assumptions {t}.\n')
    rc, out = sh(["coqc", "-Q", COQ, "DR", path], timeout=600, cwd=SCRATCH)
    res = {}
    cur = None
    for line in out.splitlines():
        if line.startswith("@@ "):
            cur = line[3:].strip()
            res[cur] = []
        elif cur is not None and line.strip() and not line.startswith("Axioms:"):
            if "Closed under the global context" in line:
                continue
            mm = re.match(r"^([A-Za-z_][\w.']*)\s*:", line)
            if mm:
                res[cur].append(mm.group(1))
    if rc != 0:
        return None, out
    return res, out


# ------------------------------------------------------------------------------------------------
# evaluation of generated case files inside Coq
# ------------------------------------------------------------------------------------------------
def coq_eval(name, text, timeout=900):
    """Compile a generated file; -> (ok, stdout)."""
    os.makedirs(SCRATCH, exist_ok=True)
    path = os.path.join(SCRATCH, name + ".v")
    with open(path, "w") as f:
        f.write(text)
    rc, out = sh(["coqc", "-Q", COQ, "DR", path], timeout=timeout, cwd=SCRATCH)
    for ext in (".vo", ".vok", ".vos", ".glob"):
        try:
            os.remove(os.path.join(SCRATCH, name + ext))
        except FileNotFoundError:
            pass
    return rc == 0, out


def parse_marked(out):
    """Output of `idtac "@@ key"` followed by an Eval: -> {key: raw text of the value}"""
    res, cur, buf = {}, None, []
    for line in out.splitlines():
        if line.startswith("@@ "):
            if cur is not None:
                res[cur] = "\n".join(buf)
            cur, buf = line[3:].strip(), []
        elif cur is not None:
            buf.append(line)
    if cur is not None:
        res[cur] = "\n".join(buf)
    return res


def parse_int_list(raw):
    """'= [1; 5; 7]%N : list N' -> [1,5,7]"""
    body = raw.split(":", 1)[0] if "\n     :" not in raw else raw.split("\n     :", 1)[0]
    m = re.search(r"=\s*(.*)", body, re.S)
    if not m:
        return None
    return [int(x) for x in re.findall(r"-?\d+", m.group(1))]


def parse_pairs(raw):
    """'= [(1, 5); (7, 1000)]%N : list (nat * N)' -> [(1,5),(7,1000)]"""
    body = raw.split("\n     :", 1)[0]
    m = re.search(r"=\s*(.*)", body, re.S)
    if not m:
        return None
    txt = m.group(1)
    txt = re.sub(r":\s*list.*$", "", txt, flags=re.S)
    return [(int(a), int(b)) for a, b in re.findall(r"\(\s*(\d+)(?:%\w+)?\s*,\s*(\d+)(?:%\w+)?\s*\)", txt)]


def eval_sharded(prefix, header, case_defs, checker, shard=200, jobs=12, timeout=900):
    """case_defs: Gallina terms (strings) of one type; checker: Gallina function `case -> N`
    (0 = pass).  Returns ({index: code} for non-zero codes, errors).  One coqc run per shard, shards
    in parallel."""
    from concurrent.futures import ThreadPoolExecutor
    shards = [(i, case_defs[i:i + shard]) for i in range(0, len(case_defs), shard)]

    def run(sh_):
        base, cs = sh_
        body = [header, "Definition cases := ["]
        body.append(";\n".join(f"  ({c})" for c in cs))
        body.append("].")
        body.append("Definition verdicts := filter (fun ic => negb (N.eqb (snd ic) 0%N)) "
                    "(combine (seq 0 (length cases)) (map " + checker + " cases)).")
        body.append('Goal True. idtac "@@ count". Abort.')
        body.append("Eval vm_compute in (length verdicts, length cases).")
        body.append('Goal True. idtac "@@ verdicts". Abort.')
        body.append("Eval vm_compute in verdicts.")
        ok, out = coq_eval(f"{prefix}_{base}", "\n".join(body), timeout=timeout)
        if not ok:
            return base, None, out
        marked = parse_marked(out)
        pairs = parse_pairs(marked.get("verdicts", ""))
        cnt = parse_pairs(marked.get("count", ""))
        # fail closed: the parsed verdict list must have exactly the length Coq reports
        if pairs is None or not cnt or cnt[0][0] != len(pairs) or cnt[0][1] != len(cs):
            return base, None, "could not parse verdicts reliably:\n" + out
        return base, {base + i: c for i, c in pairs}, out

    codes, errors = {}, []
    with ThreadPoolExecutor(max_workers=jobs) as ex:
        for base, res, out in ex.map(run, shards):
            if res is None:
                errors.append((base, out[-3000:]))
            else:
                codes.update(res)
    return codes, errors


def eval_show(name, header, exprs, timeout=300):
    """Evaluate named Gallina expressions and return their printed values (for replays)."""
    body = [header]
    for k, e in exprs.items():
        body.append(f'Goal True. idtac "@@ {k}". Abort.')
        body.append(f"Eval vm_compute in ({e}).")
    ok, out = coq_eval(name, "\n".join(body), timeout=timeout)
    return parse_marked(out) if ok else {"error": out[-3000:]}


# ------------------------------------------------------------------------------------------------
# verdict protocol
# ------------------------------------------------------------------------------------------------
def load_known_findings():
    path = os.path.join(VERIF, "KNOWN_FINDINGS.txt")
    out = []
    if os.path.exists(path):
        for line in open(path):
            line = line.strip()
            m = re.match(r"finding:\s+property=(\S+)\s+sig=(\S+)\s+(.*)", line)
            if m:
                out.append({"property": m.group(1), "sig": m.group(2), "text": m.group(3)})
    return out


class Ctx:
    def __init__(self, prop, tier, seed):
        self.prop, self.tier, self.seed = prop, tier, seed
        self.t0 = time.time()
        self.coverage = {"samples": []}
        self.assumptions = []
        self.violations = []      # replay paths
        self.known_hits = {}      # sig -> description
        self.known = [k for k in load_known_findings() if k["property"] == prop]
        self.notes = []
        import glob
        for f in glob.glob(os.path.join(VERIF, "replays", f"{prop}-*.json")):
            try:
                os.remove(f)
            except OSError:
                pass

    # ---- reporting -------------------------------------------------------------------------
    def violation(self, replay, no_input=False):
        os.makedirs(os.path.join(VERIF, "replays"), exist_ok=True)
        n = len(self.violations)
        path = os.path.join(VERIF, "replays", f"{self.prop}-{n}.json")
        replay = dict(replay)
        replay.update({"property": self.prop, "seed": self.seed, "tier": self.tier})
        with open(path, "w") as f:
            json.dump(replay, f, indent=1, default=str)
        self.violations.append(path)
        print(f"VIOLATION property={self.prop} replay={path}" + (" no-failing-input-found" if no_input else ""))
        sys.stdout.flush()

    def failing_case(self, case, signature_of=None):
        """A concrete failing input.  Suppressed only if its signature is a listed known finding."""
        sig = signature_of(case) if signature_of else None
        for k in self.known:
            if sig is not None and k["sig"] == sig:
                if sig not in self.known_hits:
                    self.known_hits[sig] = k["text"]
                    print(f"KNOWN-FINDING: property={self.prop} {k['text']}")
                return False
        self.violation(case)
        return True

    def finish(self, level="proof"):
        wall = time.time() - self.t0
        ev = {"property_id": self.prop, "tier": self.tier, "seed": self.seed, "level": level,
              "coverage": self.coverage, "assumptions": self.assumptions, "wall_s": round(wall, 2),
              "violations": len(self.violations)}
        if self.notes:
            ev["coverage"]["notes"] = self.notes
        os.makedirs(os.path.join(VERIF, "evidence"), exist_ok=True)
        with open(os.path.join(VERIF, "evidence", f"{self.prop}.json"), "w") as f:
            json.dump(ev, f, indent=1, default=str)
        if self.violations:
            print(f"{self.prop}: {len(self.violations)} violation(s); evidence written ({wall:.1f}s)")
            return 1
        print(f"{self.prop}: OK — obligations {self.coverage.get('discharged')}/{self.coverage.get('obligations')}, "
              f"{self.coverage.get('evaluations', 0)} cases evaluated ({wall:.1f}s)")
        return 0


def s1(ctx, units, prop_module, theorems, extra_targets=()):
    """Regenerate, prove, collect assumptions.  Returns dict with keys ok, broken (description)."""
    res = {"ok": True, "broken": []}
    dig = regen(units)
    ctx.coverage["translated_units"] = dig
    res["fallback"] = []
    rel0 = prop_module.replace(".", "/") + ".v"
    cone0 = set(module_cone(rel0)) | {f for t in extra_targets for f in module_cone(t[:-1] if t.endswith(".vo") else t)}
    unit_files = {"Static": ["Gen/Dataclasses.v", "Gen/WriteSites.v"]}
    for u, d in dig.items():
        if not any(f in cone0 for f in unit_files.get(u, [f"Gen/{u}.v"])):
            continue            # this property's theorems and checkers do not depend on that unit
        if str(d).startswith("REFUSED"):
            res["ok"] = False
            res["broken"].append({"kind": "translator-refused", "unit": u, "detail": d})
        elif str(d).startswith("FALLBACK"):
            res["fallback"].append(u)
            ctx.notes.append(f"translator refused the current text of unit {u} ({d[10:]}); the committed reference translation "
                             f"coq/Ref/{u}.v is used and tied to the code by direct correspondence on this run")
    rel = prop_module.replace(".", "/") + ".v"
    cone = module_cone(rel)
    bad = forbidden_in(cone)
    if bad:
        res["ok"] = False
        res["broken"].append({"kind": "forbidden-vernacular", "detail": bad})
    stmts = statements_in(cone)
    ok, log = build([rel + "o"] + [t for t in extra_targets])
    built = [f for f in cone if os.path.exists(os.path.join(COQ, f + "o"))
             and os.path.getmtime(os.path.join(COQ, f + "o")) >= os.path.getmtime(os.path.join(COQ, f))]
    ctx.coverage["obligations"] = len(stmts)
    ctx.coverage["discharged"] = len([s for s in stmts if s[0] in built]) if ok else \
        len([s for s in stmts if s[0] in built and s[0] != (failing_statement(log) or {}).get("file")])
    ctx.coverage["checker_cmd"] = f"cd {COQ} && ./mk.sh {rel}o   (coqc 8.16.1, full .vo build)"
    ctx.coverage["proof_files"] = cone
    if not ok:
        res["ok"] = False
        fs = failing_statement(log)
        res["broken"].append({"kind": "proof-or-model-does-not-check", "where": fs, "log_tail": log[-1500:]})
        ctx.coverage["trusted_base"] = ["(proof build failed on this run)"]
        return res
    if "Slice" in res["fallback"]:
        # the reference kernels must agree with the real Slice methods on every small window pair
        import kernels
        build(["Model/CheckKernels.vo"])
        n, bad, errors = kernels.slice_differential()
        ctx.coverage["slice_kernel_correspondence"] = {"cases": n, "disagreements": len(bad), "eval_errors": len(errors)}
        if bad or errors or n == 0:
            res["ok"] = False
            res["broken"].append({"kind": "reference-kernel-disagrees-with-the-code", "unit": "Slice",
                                  "first_disagreement": (bad or [None])[0], "errors": [e[1][-400:] for e in errors[:1]]})
    ax, out = print_assumptions(ctx.prop, theorems, prop_module)
    if ax is None:
        res["ok"] = False
        res["broken"].append({"kind": "print-assumptions-failed", "log_tail": out[-1500:]})
        ax = {}
    allax = sorted({a for v in ax.values() for a in v})
    ctx.coverage["theorems"] = {t: (v if v else "closed under the global context") for t, v in ax.items()}
    ctx.coverage["trusted_base"] = [
        "Coq 8.16.1 kernel (coqc); vm_compute used only in Example witnesses and in the correspondence evaluation",
        "axioms reported by Print Assumptions: " + (", ".join(allax) if allax else "none (closed under the global context)"),
        "translator /verif/translate/pylite.py + units.py for the units listed under translated_units",
        "hand-written model files under coq/Model (tied to the code by the correspondence run of this check)",
        "Python harness (generators, encoders, canonicalisation) under /verif/harness and /verif/vlib",
    ]
    return res


# ------------------------------------------------------------------------------------------------
# generic S2/S3 judgement for program-style cases
# ------------------------------------------------------------------------------------------------
def vo_fresh(rel_v):
    vo = os.path.join(COQ, rel_v + "o")
    v = os.path.join(COQ, rel_v)
    return os.path.exists(vo) and os.path.getmtime(vo) >= os.path.getmtime(v)


def judge(ctx, cases, full_header, full_checker, spec_header=None, spec_checker=None, model_v=None,
          signature_of=None, bits=None, shard=200, prefix=None, found_elsewhere=False):
    """cases: list of dicts with keys 'json' (replayable description), 'coq' (term for the full
    checker), optionally 'spec' (term for the spec-only checker), 'nontrivial' (bool), 'key'.
    Returns summary dict.  Reports violations through ctx."""
    bits = bits or {1: "built tree differs from the model (model≍implementation)",
                    2: "executed rows differ from the model's execute (model≍implementation)",
                    4: "executed rows differ from the SPECIFICATION (counterexample on the real code)"}
    prefix = prefix or f"cases_{ctx.prop}"
    use_full = model_v is None or vo_fresh(model_v)
    if use_full:
        codes, errors = eval_sharded(prefix, full_header, [c["coq"] for c in cases], full_checker, shard=shard)
    else:
        ctx.notes.append("model does not build: implementation compared with the specification only")
        codes, errors = eval_sharded(prefix, spec_header, [c["spec"] for c in cases], spec_checker, shard=shard)
    summary = {"evaluated": len(cases), "out_of_domain": 0, "spec_failures": 0, "model_mismatches": 0,
               "eval_errors": len(errors), "used_full_model": use_full}
    if errors:
        ctx.violation({"kind": "correspondence-evaluation-failed", "detail": errors[0][1]}, no_input=True)
    spec_fail, model_mis = [], []
    for i, code in sorted(codes.items()):
        if code >= 1000:
            summary["out_of_domain"] += 1
        elif code & ~3:
            spec_fail.append((i, code))
        else:
            model_mis.append((i, code))
    summary["spec_failures"], summary["model_mismatches"] = len(spec_fail), len(model_mis)
    # concrete counterexamples first (smallest description first), at most a few replays
    spec_fail.sort(key=lambda ic: len(json.dumps(cases[ic[0]]["json"], default=str)))
    reported, unlisted = 0, 0
    known_sigs = {k["sig"] for k in ctx.known}
    for i, code in spec_fail:
        c = cases[i]
        sig = signature_of(c) if signature_of else None
        if sig is not None and sig in known_sigs:
            ctx.failing_case({"kind": "known-finding", "case": c["json"]}, lambda r, sig=sig: sig)    # prints KNOWN-FINDING once
            continue
        unlisted += 1
        if reported < 3:
            rep = {"kind": "implementation-violates-specification", "case": c["json"], "code": code,
                   "meaning": [m for b, m in bits.items() if code & b]}
            ctx.failing_case(rep, None)
            reported += 1
    # only failures that are not listed known findings count as found
    summary["known_finding_cases"] = len(spec_fail) - unlisted
    summary["spec_failures"] = unlisted
    # (spec failures that are listed known findings do not excuse a broken correspondence)
    if model_mis and reported == 0 and not found_elsewhere:
        model_mis.sort(key=lambda ic: len(json.dumps(cases[ic[0]]["json"], default=str)))
        i, code = model_mis[0]
        ctx.violation({"kind": "model-implementation-correspondence-broken", "case": cases[i]["json"], "code": code,
                       "meaning": [m for b, m in bits.items() if code & b],
                       "count": len(model_mis),
                       "explanation": "the model no longer describes the code on this input; the implementation still "
                                      "agrees with the specification on every explored input"}, no_input=True)
    return summary


def conclude_s1(ctx, s1res, found_input):
    """If the proof / translator broke and no failing input was found, still report."""
    if not s1res["ok"] and not found_input:
        ctx.violation({"kind": "proof-obligation-broken", "broken": s1res["broken"]}, no_input=True)
